//! MIR fact exporter: drop-elaborated CFG with resolved callees and evaluated constants.
use crate::json::J;
use crate::Cx;
use rustc_hir::def::DefKind;
use rustc_hir::def_id::DefId;
use rustc_middle::mir::{
    self, AggregateKind, BasicBlock, Body, Const, ConstValue, Operand, Place, ProjectionElem,
    Rvalue, StatementKind, TerminatorKind, UnwindAction,
};
use rustc_middle::ty::{self, GenericArgsRef, Ty, TyKind};
use rustc_span::Span;

pub fn body_to_json<'tcx>(cx: &Cx<'tcx>, owner: DefId, body: &Body<'tcx>) -> J {
    let tcx = cx.tcx;
    let typing_env = ty::TypingEnv::post_analysis(tcx, owner);
    let mut locals = Vec::new();
    // debug names
    let mut names: Vec<Option<String>> = vec![None; body.local_decls.len()];
    let mut dbg = Vec::new();
    for vdi in body.var_debug_info.iter() {
        match &vdi.value {
            mir::VarDebugInfoContents::Place(p) => {
                if p.projection.is_empty() {
                    names[p.local.as_usize()] = Some(vdi.name.to_string());
                }
                dbg.push(J::Obj(vec![
                    ("name", J::s(vdi.name.to_string())),
                    ("place", place(cx, body, p)),
                ]));
            }
            mir::VarDebugInfoContents::Const(c) => {
                dbg.push(J::Obj(vec![
                    ("name", J::s(vdi.name.to_string())),
                    ("const", konst(cx, typing_env, &c.const_)),
                ]));
            }
        }
    }
    for (i, d) in body.local_decls.iter_enumerated() {
        locals.push(J::Obj(vec![
            ("ty", J::s(cx.ty_str(d.ty))),
            ("name", J::opt_s(names[i.as_usize()].clone())),
            ("mut", J::Bool(d.mutability.is_mut())),
        ]));
    }
    let mut blocks = Vec::new();
    for (_bb, data) in body.basic_blocks.iter_enumerated() {
        let mut stmts = Vec::new();
        for st in data.statements.iter() {
            if let Some(j) = stmt(cx, typing_env, body, st) {
                stmts.push(j);
            }
        }
        let term = match &data.terminator {
            Some(t) => terminator(cx, typing_env, body, data, t),
            None => J::Null,
        };
        blocks.push(J::Obj(vec![
            ("s", J::Arr(stmts)),
            ("t", term),
            ("cleanup", if data.is_cleanup { J::Bool(true) } else { J::Null }),
        ]));
    }
    J::Obj(vec![
        ("argc", J::Int(body.arg_count as i128)),
        ("locals", J::Arr(locals)),
        ("dbg", J::Arr(dbg)),
        ("blocks", J::Arr(blocks)),
    ])
}

fn span_fields<'tcx>(cx: &Cx<'tcx>, sp: Span, v: &mut Vec<(&'static str, J)>) {
    let (line, exp) = cx.span_info(sp);
    v.push(("ln", J::Int(line as i128)));
    v.push(("exp", J::opt_s(exp)));
    if let Some(c) = cx.span_chain(sp) {
        v.push(("expc", J::s(c)));
    }
}

fn stmt<'tcx>(
    cx: &Cx<'tcx>,
    te: ty::TypingEnv<'tcx>,
    body: &Body<'tcx>,
    st: &mir::Statement<'tcx>,
) -> Option<J> {
    let mut v: Vec<(&'static str, J)> = Vec::new();
    match &st.kind {
        StatementKind::Assign(b) => {
            let (p, rv) = &**b;
            v.push(("k", J::s("assign")));
            v.push(("p", place(cx, body, p)));
            v.push(("rv", rvalue(cx, te, body, rv)));
        }
        StatementKind::SetDiscriminant { place: p, variant_index } => {
            v.push(("k", J::s("setdiscr")));
            v.push(("p", place(cx, body, p)));
            let pty = p.ty(body, cx.tcx).ty;
            let name = match pty.kind() {
                TyKind::Adt(adt, _) if adt.is_enum() => {
                    adt.variant(*variant_index).name.to_string()
                }
                _ => format!("{}", variant_index.as_usize()),
            };
            v.push(("variant", J::s(name)));
        }
        StatementKind::StorageDead(l) => {
            v.push(("k", J::s("dead")));
            v.push(("l", J::Int(l.as_usize() as i128)));
        }
        StatementKind::StorageLive(l) => {
            v.push(("k", J::s("live")));
            v.push(("l", J::Int(l.as_usize() as i128)));
        }
        _ => return None,
    }
    span_fields(cx, st.source_info.span, &mut v);
    Some(J::Obj(v))
}

pub fn place<'tcx>(cx: &Cx<'tcx>, body: &Body<'tcx>, p: &Place<'tcx>) -> J {
    let tcx = cx.tcx;
    let mut proj = Vec::new();
    let mut cur = mir::PlaceTy::from_ty(body.local_decls[p.local].ty);
    for elem in p.projection.iter() {
        let j = match elem {
            ProjectionElem::Deref => J::s("*"),
            ProjectionElem::Field(f, fty) => {
                let name = match cur.ty.kind() {
                    TyKind::Adt(adt, _) => {
                        let vidx = cur.variant_index.unwrap_or(rustc_abi::FIRST_VARIANT);
                        if adt.is_enum() && cur.variant_index.is_none() {
                            format!("{}", f.as_usize())
                        } else {
                            adt.variant(vidx)
                                .fields
                                .get(f)
                                .map(|fd| fd.name.to_string())
                                .unwrap_or_else(|| format!("{}", f.as_usize()))
                        }
                    }
                    _ => format!("{}", f.as_usize()),
                };
                J::Obj(vec![
                    ("f", J::s(name)),
                    ("i", J::Int(f.as_usize() as i128)),
                    ("ty", J::s(cx.ty_str(fty))),
                    ("of", J::s(cx.ty_str(cur.ty))),
                ])
            }
            ProjectionElem::Index(l) => J::Obj(vec![("idx", J::Int(l.as_usize() as i128))]),
            ProjectionElem::ConstantIndex { offset, min_length, from_end } => J::Obj(vec![
                ("cidx", J::Int(offset as i128)),
                ("minlen", J::Int(min_length as i128)),
                ("from_end", J::Bool(from_end)),
            ]),
            ProjectionElem::Subslice { from, to, from_end } => J::Obj(vec![
                ("sub_from", J::Int(from as i128)),
                ("sub_to", J::Int(to as i128)),
                ("from_end", J::Bool(from_end)),
            ]),
            ProjectionElem::Downcast(sym, vidx) => {
                let name = match sym {
                    Some(s) => s.to_string(),
                    None => match cur.ty.kind() {
                        TyKind::Adt(adt, _) => adt.variant(vidx).name.to_string(),
                        _ => format!("{}", vidx.as_usize()),
                    },
                };
                J::Obj(vec![("as", J::s(name))])
            }
            ProjectionElem::OpaqueCast(_) => J::s("opaque"),
            ProjectionElem::UnwrapUnsafeBinder(_) => J::s("unbind"),
        };
        proj.push(j);
        cur = cur.projection_ty(tcx, elem);
    }
    J::Obj(vec![
        ("l", J::Int(p.local.as_usize() as i128)),
        ("pr", if proj.is_empty() { J::Null } else { J::Arr(proj) }),
    ])
}

pub fn operand<'tcx>(
    cx: &Cx<'tcx>,
    te: ty::TypingEnv<'tcx>,
    body: &Body<'tcx>,
    op: &Operand<'tcx>,
) -> J {
    match op {
        Operand::Copy(p) => J::Obj(vec![("copy", place(cx, body, p))]),
        Operand::Move(p) => J::Obj(vec![("move", place(cx, body, p))]),
        Operand::Constant(c) => J::Obj(vec![("const", konst(cx, te, &c.const_))]),
        #[allow(unreachable_patterns)]
        other => J::Obj(vec![("other", J::s(format!("{:?}", other)))]),
    }
}

fn generic_args<'tcx>(cx: &Cx<'tcx>, args: GenericArgsRef<'tcx>) -> J {
    let mut v = Vec::new();
    for a in args.iter() {
        if let Some(t) = a.as_type() {
            v.push(J::s(cx.ty_str(t)));
        } else if let Some(c) = a.as_const() {
            v.push(J::s(format!("{}", c)));
        }
    }
    J::Arr(v)
}

pub fn konst<'tcx>(cx: &Cx<'tcx>, te: ty::TypingEnv<'tcx>, c: &Const<'tcx>) -> J {
    let tcx = cx.tcx;
    let ty = c.ty();
    let mut v: Vec<(&'static str, J)> = vec![("ty", J::s(cx.ty_str(ty)))];
    // function items / closures: zero-sized fn defs
    match ty.kind() {
        TyKind::FnDef(did, args) => {
            v.push(("fn", J::s(cx.path(*did))));
            v.push(("args", generic_args(cx, args)));
            return J::Obj(v);
        }
        TyKind::Closure(did, _) => {
            v.push(("closure", J::s(cx.path(*did))));
            return J::Obj(v);
        }
        _ => {}
    }
    if let Const::Unevaluated(uv, _) = c {
        // remember which named constant this was
        if uv.promoted.is_none() {
            v.push(("named", J::s(cx.path(uv.def))));
        } else {
            v.push(("promoted", J::Int(uv.promoted.unwrap().as_usize() as i128)));
            v.push(("promoted_of", J::s(cx.path(uv.def))));
        }
    }
    // try evaluating
    let val: Option<ConstValue> = match c {
        Const::Val(val, _) => Some(*val),
        Const::Ty(_, tc) => {
            match tc.kind() {
                ty::ConstKind::Value(cv) => {
                    if let Some(s) = cv.try_to_leaf() {
                        Some(ConstValue::Scalar(mir::interpret::Scalar::Int(s)))
                    } else {
                        None
                    }
                }
                _ => None,
            }
        }
        Const::Unevaluated(uv, _) => {
            // only evaluate if not generic-dependent
            if uv.args.iter().all(|a| !a.has_param()) && uv.promoted.is_none() {
                c.eval(tcx, te, rustc_span::DUMMY_SP).ok()
            } else {
                None
            }
        }
    };
    if let Some(val) = val {
        const_value(cx, ty, val, &mut v);
    } else if !matches!(c, Const::Unevaluated(..)) {
        v.push(("dbg", J::s(format!("{}", c))));
    }
    J::Obj(v)
}

use rustc_middle::ty::TypeVisitableExt;

fn const_value<'tcx>(cx: &Cx<'tcx>, ty: Ty<'tcx>, val: ConstValue, v: &mut Vec<(&'static str, J)>) {
    let tcx = cx.tcx;
    match val {
        ConstValue::ZeroSized => {
            v.push(("zst", J::Bool(true)));
        }
        ConstValue::Scalar(mir::interpret::Scalar::Int(si)) => {
            let size = si.size();
            let bits = si.to_bits(size);
            match ty.kind() {
                TyKind::Bool => v.push(("bool", J::Bool(bits != 0))),
                TyKind::Char => {
                    v.push(("char", J::s(char::from_u32(bits as u32).map(|c| c.to_string()).unwrap_or_default())));
                    v.push(("int", J::Int(bits as i128)));
                }
                TyKind::Int(_) => {
                    let sbits = size.sign_extend(bits);
                    v.push(("int", J::Int(sbits)));
                }
                TyKind::Float(fty) => {
                    let s = match fty.bit_width() {
                        32 => format!("{:?}", f32::from_bits(bits as u32)),
                        64 => format!("{:?}", f64::from_bits(bits as u64)),
                        _ => format!("bits:{}", bits),
                    };
                    v.push(("float", J::s(s)));
                }
                TyKind::Adt(adt, _) if adt.is_enum() => {
                    // fieldless enum constant: map discriminant to variant
                    let mut name = None;
                    for (vi, d) in adt.discriminants(tcx) {
                        if d.val == bits {
                            name = Some(adt.variant(vi).name.to_string());
                        }
                    }
                    v.push(("int", J::Int(bits as i128)));
                    v.push(("variant", J::opt_s(name)));
                }
                _ => v.push(("int", J::Int(bits as i128))),
            }
        }
        ConstValue::Scalar(mir::interpret::Scalar::Ptr(ptr, _)) => {
            let (prov, _off) = ptr.into_raw_parts();
            let alloc_id = prov.alloc_id();
            match tcx.try_get_global_alloc(alloc_id) {
                Some(mir::interpret::GlobalAlloc::Static(did)) => {
                    v.push(("static", J::s(cx.path(did))));
                }
                Some(mir::interpret::GlobalAlloc::Function { instance }) => {
                    v.push(("fnptr", J::s(cx.path(instance.def_id()))));
                }
                Some(mir::interpret::GlobalAlloc::Memory(alloc)) => {
                    v.push(("mem", J::Bool(true)));
                    // byte-string literals: &[u8; N]
                    if let TyKind::Ref(_, inner, _) = ty.kind() {
                        if let TyKind::Array(elem, len) = inner.kind() {
                            if *elem == tcx.types.u8 {
                                if let Some(n) = len.try_to_target_usize(tcx) {
                                    let a = alloc.inner();
                                    let n = n as usize;
                                    if n <= a.len() && n <= 4096 {
                                        let bytes = a.inspect_with_uninit_and_ptr_outside_interpreter(0..n);
                                        v.push(("bytes", J::Arr(bytes.iter().map(|b| J::Int(*b as i128)).collect())));
                                    }
                                }
                            }
                        }
                    }
                }
                _ => {
                    v.push(("ptr", J::Bool(true)));
                }
            }
        }
        ConstValue::Slice { .. } => {
            if let Some(bytes) = val.try_get_slice_bytes_for_diagnostics(tcx) {
                let is_str = match ty.kind() {
                    TyKind::Ref(_, inner, _) => inner.is_str(),
                    _ => false,
                };
                if is_str {
                    v.push(("str", J::s(String::from_utf8_lossy(bytes).to_string())));
                } else {
                    v.push(("bytes", J::Arr(bytes.iter().map(|b| J::Int(*b as i128)).collect())));
                }
            }
        }
        ConstValue::Indirect { .. } => {
            // Aggregates in memory: print via the pretty-printer (bounded length).
            let mut s = format!("{}", Const::Val(val, ty));
            if s.len() > 400 {
                s.truncate(400);
            }
            v.push(("agg", J::s(s)));
            // enum with data or fieldless enum stored indirectly: try to name the variant
        }
    }
}

fn rvalue<'tcx>(cx: &Cx<'tcx>, te: ty::TypingEnv<'tcx>, body: &Body<'tcx>, rv: &Rvalue<'tcx>) -> J {
    let tcx = cx.tcx;
    match rv {
        Rvalue::Use(op, ..) => J::Obj(vec![("k", J::s("use")), ("a", operand(cx, te, body, op))]),
        Rvalue::Repeat(op, n) => J::Obj(vec![
            ("k", J::s("repeat")),
            ("a", operand(cx, te, body, op)),
            ("n", J::s(format!("{}", n))),
        ]),
        Rvalue::Ref(_, bk, p) => J::Obj(vec![
            ("k", J::s("ref")),
            ("mut", J::Bool(matches!(bk, mir::BorrowKind::Mut { .. }))),
            ("p", place(cx, body, p)),
        ]),
        Rvalue::ThreadLocalRef(did) => {
            J::Obj(vec![("k", J::s("tlsref")), ("static", J::s(cx.path(*did)))])
        }
        Rvalue::RawPtr(kind, p) => J::Obj(vec![
            ("k", J::s("rawptr")),
            ("mut", J::Bool(matches!(kind, mir::RawPtrKind::Mut))),
            ("p", place(cx, body, p)),
        ]),
        Rvalue::Cast(kind, op, ty) => J::Obj(vec![
            ("k", J::s("cast")),
            ("cast", J::s(format!("{:?}", kind))),
            ("a", operand(cx, te, body, op)),
            ("from", J::s(cx.ty_str(op.ty(body, tcx)))),
            ("to", J::s(cx.ty_str(*ty))),
        ]),
        Rvalue::BinaryOp(op, b) => {
            let (l, r) = &**b;
            J::Obj(vec![
                ("k", J::s("bin")),
                ("op", J::s(format!("{:?}", op))),
                ("a", operand(cx, te, body, l)),
                ("b", operand(cx, te, body, r)),
            ])
        }
        Rvalue::UnaryOp(op, a) => J::Obj(vec![
            ("k", J::s("un")),
            ("op", J::s(format!("{:?}", op))),
            ("a", operand(cx, te, body, a)),
        ]),
        Rvalue::Discriminant(p) => {
            let pty = p.ty(body, tcx).ty;
            J::Obj(vec![
                ("k", J::s("discr")),
                ("p", place(cx, body, p)),
                ("of", J::s(cx.ty_str(pty))),
            ])
        }
        Rvalue::Aggregate(kind, ops) => {
            let mut v: Vec<(&'static str, J)> = vec![("k", J::s("agg"))];
            match &**kind {
                AggregateKind::Array(t) => {
                    v.push(("agg", J::s("array")));
                    v.push(("ty", J::s(cx.ty_str(*t))));
                }
                AggregateKind::Tuple => v.push(("agg", J::s("tuple"))),
                AggregateKind::Adt(did, vidx, _args, _, active) => {
                    v.push(("agg", J::s("adt")));
                    let adt = tcx.adt_def(*did);
                    v.push(("adt", J::s(cx.path(*did))));
                    let var = adt.variant(*vidx);
                    v.push(("variant", J::s(var.name.to_string())));
                    if let Some(a) = active {
                        v.push(("fields", J::Arr(vec![J::s(var.fields[*a].name.to_string())])));
                    } else {
                        v.push((
                            "fields",
                            J::Arr(var.fields.iter().map(|f| J::s(f.name.to_string())).collect()),
                        ));
                    }
                }
                AggregateKind::Closure(did, _) => {
                    v.push(("agg", J::s("closure")));
                    v.push(("closure", J::s(cx.path(*did))));
                }
                AggregateKind::Coroutine(did, _) => {
                    v.push(("agg", J::s("coroutine")));
                    v.push(("closure", J::s(cx.path(*did))));
                }
                other => v.push(("agg", J::s(format!("{:?}", other)))),
            }
            v.push(("ops", J::Arr(ops.iter().map(|o| operand(cx, te, body, o)).collect())));
            J::Obj(v)
        }
        Rvalue::CopyForDeref(p) => J::Obj(vec![
            ("k", J::s("use")),
            ("a", J::Obj(vec![("copy", place(cx, body, p))])),
        ]),
        other => J::Obj(vec![("k", J::s("other")), ("dbg", J::s(format!("{:?}", other)))]),
    }
}

fn bb(b: BasicBlock) -> J {
    J::Int(b.as_usize() as i128)
}

fn unwind(u: &UnwindAction) -> J {
    match u {
        UnwindAction::Cleanup(b) => bb(*b),
        UnwindAction::Continue => J::s("continue"),
        UnwindAction::Unreachable => J::s("unreachable"),
        UnwindAction::Terminate(_) => J::s("terminate"),
    }
}

fn terminator<'tcx>(
    cx: &Cx<'tcx>,
    te: ty::TypingEnv<'tcx>,
    body: &Body<'tcx>,
    data: &mir::BasicBlockData<'tcx>,
    t: &mir::Terminator<'tcx>,
) -> J {
    let tcx = cx.tcx;
    let mut v: Vec<(&'static str, J)> = Vec::new();
    match &t.kind {
        TerminatorKind::Goto { target } => {
            v.push(("k", J::s("goto")));
            v.push(("target", bb(*target)));
        }
        TerminatorKind::SwitchInt { discr, targets } => {
            v.push(("k", J::s("switch")));
            v.push(("discr", operand(cx, te, body, discr)));
            let dty = discr.ty(body, tcx);
            v.push(("dty", J::s(cx.ty_str(dty))));
            // If the discriminant local was assigned from `discriminant(place)` in this block, name variants.
            let mut enum_ty: Option<Ty<'tcx>> = None;
            if let Some(dp) = discr.place() {
                for st in data.statements.iter().rev() {
                    if let StatementKind::Assign(b) = &st.kind {
                        let (p, rv) = &**b;
                        if *p == dp {
                            if let Rvalue::Discriminant(ep) = rv {
                                enum_ty = Some(ep.ty(body, tcx).ty);
                            }
                            break;
                        }
                    }
                }
            }
            let mut arms = Vec::new();
            for (val, target) in targets.iter() {
                let mut a: Vec<(&'static str, J)> = vec![("v", J::Int(val as i128)), ("bb", bb(target))];
                if let Some(et) = enum_ty {
                    if let TyKind::Adt(adt, _) = et.kind() {
                        if adt.is_enum() {
                            for (vi, d) in adt.discriminants(tcx) {
                                if d.val == val {
                                    a.push(("variant", J::s(adt.variant(vi).name.to_string())));
                                }
                            }
                        }
                    }
                }
                if dty.is_char() {
                    a.push(("char", J::s(char::from_u32(val as u32).map(|c| c.to_string()).unwrap_or_default())));
                }
                arms.push(J::Obj(a));
            }
            v.push(("arms", J::Arr(arms)));
            v.push(("otherwise", bb(targets.otherwise())));
            if let Some(et) = enum_ty {
                v.push(("enum", J::s(cx.ty_str(et))));
                if let TyKind::Adt(adt, _) = et.kind() {
                    if adt.is_enum() {
                        v.push((
                            "all_variants",
                            J::Arr(adt.variants().iter().map(|x| J::s(x.name.to_string())).collect()),
                        ));
                    }
                }
            }
        }
        TerminatorKind::UnwindResume => v.push(("k", J::s("resume"))),
        TerminatorKind::UnwindTerminate(_) => v.push(("k", J::s("terminate"))),
        TerminatorKind::Return => v.push(("k", J::s("return"))),
        TerminatorKind::Unreachable => v.push(("k", J::s("unreachable"))),
        TerminatorKind::Drop { place: p, target, unwind: u, .. } => {
            v.push(("k", J::s("drop")));
            v.push(("p", place(cx, body, p)));
            v.push(("pty", J::s(cx.ty_str(p.ty(body, tcx).ty))));
            v.push(("target", bb(*target)));
            v.push(("unwind", unwind(u)));
        }
        TerminatorKind::Call { func, args, destination, target, unwind: u, call_source, .. } => {
            v.push(("k", J::s("call")));
            call_common(cx, te, body, func, &mut v);
            v.push(("args", J::Arr(args.iter().map(|a| operand(cx, te, body, &a.node)).collect())));
            v.push(("dest", place(cx, body, destination)));
            v.push(("target", target.map(bb).unwrap_or(J::Null)));
            v.push(("unwind", unwind(u)));
            v.push(("src", J::s(format!("{:?}", call_source))));
        }
        TerminatorKind::TailCall { func, args, .. } => {
            v.push(("k", J::s("tailcall")));
            call_common(cx, te, body, func, &mut v);
            v.push(("args", J::Arr(args.iter().map(|a| operand(cx, te, body, &a.node)).collect())));
        }
        TerminatorKind::Assert { cond, expected, msg, target, unwind: u } => {
            v.push(("k", J::s("assert")));
            v.push(("cond", operand(cx, te, body, cond)));
            v.push(("expected", J::Bool(*expected)));
            let m = format!("{:?}", msg);
            let kind = m.split(|c: char| !c.is_alphanumeric()).next().unwrap_or("").to_string();
            v.push(("msg", J::s(kind)));
            v.push(("target", bb(*target)));
            v.push(("unwind", unwind(u)));
        }
        TerminatorKind::Yield { resume, drop, .. } => {
            v.push(("k", J::s("yield")));
            v.push(("target", bb(*resume)));
            v.push(("drop", drop.map(bb).unwrap_or(J::Null)));
        }
        TerminatorKind::CoroutineDrop => v.push(("k", J::s("coroutine_drop"))),
        TerminatorKind::FalseEdge { real_target, .. } => {
            v.push(("k", J::s("goto")));
            v.push(("target", bb(*real_target)));
        }
        TerminatorKind::FalseUnwind { real_target, .. } => {
            v.push(("k", J::s("goto")));
            v.push(("target", bb(*real_target)));
        }
        TerminatorKind::InlineAsm { .. } => v.push(("k", J::s("asm"))),
    }
    span_fields(cx, t.source_info.span, &mut v);
    J::Obj(v)
}

fn call_common<'tcx>(
    cx: &Cx<'tcx>,
    te: ty::TypingEnv<'tcx>,
    body: &Body<'tcx>,
    func: &Operand<'tcx>,
    v: &mut Vec<(&'static str, J)>,
) {
    let tcx = cx.tcx;
    let fty = func.ty(body, tcx);
    match fty.kind() {
        TyKind::FnDef(did, args) => {
            v.push(("callee", J::s(cx.path(*did))));
            v.push(("gargs", generic_args(cx, args)));
            // the item the callee belongs to (trait or impl)
            if let Some(tr) = tcx.trait_of_assoc(*did) {
                v.push(("trait", J::s(cx.path(tr))));
                if let Some(self_ty) = args.types().next() {
                    v.push(("self_ty", J::s(cx.ty_str(self_ty))));
                }
            }
            // resolved instance
            if matches!(tcx.def_kind(*did), DefKind::Fn | DefKind::AssocFn) {
                if let Ok(Some(inst)) = ty::Instance::try_resolve(tcx, te, *did, args) {
                    let rdid = inst.def_id();
                    let kind = match inst.def {
                        ty::InstanceKind::Item(_) => "item",
                        ty::InstanceKind::Virtual(..) => "virtual",
                        ty::InstanceKind::Intrinsic(_) => "intrinsic",
                        ty::InstanceKind::ClosureOnceShim { .. } => "closure_once_shim",
                        ty::InstanceKind::FnPtrShim(..) => "fnptr_shim",
                        ty::InstanceKind::DropGlue(..) => "drop_glue",
                        ty::InstanceKind::CloneShim(..) => "clone_shim",
                        ty::InstanceKind::ReifyShim(..) => "reify",
                        ty::InstanceKind::VTableShim(_) => "vtable_shim",
                        _ => "other",
                    };
                    v.push(("resolved", J::s(cx.path(rdid))));
                    v.push(("rkind", J::s(kind)));
                    if let Some(imp) = tcx.impl_of_assoc(rdid) {
                        let self_ty = tcx.type_of(imp).instantiate_identity().skip_norm_wip();
                        v.push(("rimpl_self", J::s(cx.ty_str(self_ty))));
                    }
                }
            }
        }
        _ => {
            v.push(("callee_op", operand(cx, te, body, func)));
            v.push(("callee_ty", J::s(cx.ty_str(fty))));
        }
    }
}
