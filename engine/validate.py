#!/usr/bin/env python3
"""Validate MANIFEST.json and evidence files against the harness schemas (uses the tooling venv's jsonschema)."""
import json, sys, glob
import jsonschema
ok = True
m = json.load(open('/verif/MANIFEST.json'))
try:
    jsonschema.validate(m, json.load(open('/root/.vp/MANIFEST.schema.json')))
    print('MANIFEST ok,', len(m['checks']), 'checks,', len(m.get('not_applicable', [])), 'n/a')
except Exception as e:
    ok = False; print('MANIFEST INVALID', e)
es = json.load(open('/root/.vp/EVIDENCE.schema.json'))
for f in sorted(glob.glob('/verif/evidence/C*.json')):
    try:
        jsonschema.validate(json.load(open(f)), es); print(f, 'ok')
    except Exception as e:
        ok = False; print(f, 'INVALID', str(e)[:300])
sys.exit(0 if ok else 1)
