//@ prop: C01
//@ expect: E0277
//@ extern: metrics
//@ twin: c01_guard_same_thread_pass
// A local-recorder guard must not be movable to another thread (it restores *this* thread's slot).
use metrics::*;
struct R<T>(T);
impl<T> Recorder for R<T> {
    fn describe_counter(&self, _: KeyName, _: Option<Unit>, _: SharedString) {}
    fn describe_gauge(&self, _: KeyName, _: Option<Unit>, _: SharedString) {}
    fn describe_histogram(&self, _: KeyName, _: Option<Unit>, _: SharedString) {}
    fn register_counter(&self, _: &Key, _: &Metadata<'_>) -> Counter { Counter::noop() }
    fn register_gauge(&self, _: &Key, _: &Metadata<'_>) -> Gauge { Gauge::noop() }
    fn register_histogram(&self, _: &Key, _: &Metadata<'_>) -> Histogram { Histogram::noop() }
}
pub fn w() {
    static REC: R<u8> = R(0);
    let guard = metrics::set_default_local_recorder(&REC);
    std::thread::spawn(move || { drop(guard); });
}
