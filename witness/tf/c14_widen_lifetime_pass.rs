//@ prop: C14
//@ expect: pass
//@ extern: metrics
pub fn w(s: &'static str) -> metrics::SharedString {
    let short: std::borrow::Cow<'static, str> = std::borrow::Cow::Borrowed(s);
    let c = From::from(short);
    c
}
