//@ prop: C14
//@ expect: pass
//@ extern: metrics
fn need<T: Send + Sync + Clone + 'static>() {}
pub fn w() {
    need::<metrics::SharedString>();
    need::<metrics::Label>();
    need::<metrics::Key>();
    need::<metrics::KeyName>();
}
