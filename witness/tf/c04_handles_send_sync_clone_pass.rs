//@ prop: C04
//@ expect: pass
//@ extern: metrics
// Handles can be cloned and used from any thread.
fn need<T: Send + Sync + Clone + 'static>() {}
pub fn w() {
    need::<metrics::Counter>();
    need::<metrics::Gauge>();
    need::<metrics::Histogram>();
}
