//@ prop: C14
//@ expect: pass
//@ extern: metrics
pub fn w() -> metrics::SharedString {
    static S: &str = "abc";
    let s: metrics::SharedString = metrics::SharedString::from(S);
    s
}
