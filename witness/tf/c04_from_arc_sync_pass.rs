//@ prop: C04
//@ expect: pass
//@ extern: metrics
use std::sync::atomic::{AtomicU64, Ordering};
use std::sync::Arc;
struct H(AtomicU64);
impl metrics::CounterFn for H {
    fn increment(&self, v: u64) { self.0.fetch_add(v, Ordering::Relaxed); }
    fn absolute(&self, v: u64) { self.0.fetch_max(v, Ordering::Relaxed); }
}
pub fn w() -> metrics::Counter {
    metrics::Counter::from_arc(Arc::new(H(AtomicU64::new(0))))
}
