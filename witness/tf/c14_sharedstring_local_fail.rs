//@ prop: C14
//@ expect: E0597
//@ extern: metrics
//@ twin: c14_sharedstring_static_pass
// A SharedString ('static) must not be buildable from a borrow of a local.
pub fn w() -> metrics::SharedString {
    let local = String::from("abc");
    let s: metrics::SharedString = metrics::SharedString::from(local.as_str());
    s
}
