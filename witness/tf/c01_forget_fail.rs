//@ prop: C01
//@ expect: fail
//@ extern: metrics
//@ note: soundness witness — leaking the guard keeps the pointer installed after the borrow ended; a sound API must reject this program
use metrics::*;
struct R<T>(T);
impl<T> Recorder for R<T> {
    fn describe_counter(&self, _: KeyName, _: Option<Unit>, _: SharedString) {}
    fn describe_gauge(&self, _: KeyName, _: Option<Unit>, _: SharedString) {}
    fn describe_histogram(&self, _: KeyName, _: Option<Unit>, _: SharedString) {}
    fn register_counter(&self, _: &Key, _: &Metadata<'_>) -> Counter { Counter::noop() }
    fn register_gauge(&self, _: &Key, _: &Metadata<'_>) -> Gauge { Gauge::noop() }
    fn register_histogram(&self, _: &Key, _: &Metadata<'_>) -> Histogram { Histogram::noop() }
}
pub fn w() {
    let b = Box::new(R(1u8));
    let g = metrics::set_default_local_recorder(&*b);
    std::mem::forget(g);
    drop(b);
    metrics::counter!("x").increment(1); // dispatch through a dangling pointer
}
