//@ prop: C04
//@ expect: E0277
//@ extern: metrics
//@ twin: c04_from_arc_sync_pass
// A handler that is not Sync must not be accepted behind a handle (handles are shared across threads).
use std::cell::Cell;
use std::sync::Arc;
struct H(Cell<u64>);
impl metrics::CounterFn for H {
    fn increment(&self, v: u64) { self.0.set(self.0.get() + v) }
    fn absolute(&self, v: u64) { self.0.set(v) }
}
pub fn w() -> metrics::Counter {
    metrics::Counter::from_arc(Arc::new(H(Cell::new(0))))
}
