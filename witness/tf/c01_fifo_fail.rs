//@ prop: C01
//@ expect: fail
//@ extern: metrics
//@ note: soundness witness — two guards dropped first-in-first-out leave the second recorder's pointer installed after its borrow ended; a sound API must reject this program
use metrics::*;
struct R<T>(T);
impl<T> Recorder for R<T> {
    fn describe_counter(&self, _: KeyName, _: Option<Unit>, _: SharedString) {}
    fn describe_gauge(&self, _: KeyName, _: Option<Unit>, _: SharedString) {}
    fn describe_histogram(&self, _: KeyName, _: Option<Unit>, _: SharedString) {}
    fn register_counter(&self, _: &Key, _: &Metadata<'_>) -> Counter { Counter::noop() }
    fn register_gauge(&self, _: &Key, _: &Metadata<'_>) -> Gauge { Gauge::noop() }
    fn register_histogram(&self, _: &Key, _: &Metadata<'_>) -> Histogram { Histogram::noop() }
}
pub fn w() {
    let a = R(0u8);
    let b = Box::new(R(1u8));
    let ga = metrics::set_default_local_recorder(&a);
    let gb = metrics::set_default_local_recorder(&*b);
    drop(ga);          // restores "no recorder"
    drop(gb);          // restores the pointer to a ... fine; now swap the order:
    let gb = metrics::set_default_local_recorder(&*b);
    let ga = metrics::set_default_local_recorder(&a);
    drop(gb);          // FIFO: slot := None (gb's saved value)
    drop(ga);          // slot := &b  (ga's saved value) although gb's borrow of b has ended
    drop(b);           // b freed; slot still points to it
    metrics::counter!("x").increment(1); // dispatch through a dangling pointer
}
