//@ prop: C02
//@ expect: E0277
//@ extern: metrics
//@ twin: c02_global_sync_pass
// The global recorder is reachable from every thread: a !Sync recorder must be rejected.
use std::cell::Cell;
use metrics::*;
struct R(Cell<u64>);
impl Recorder for R {
    fn describe_counter(&self, _: KeyName, _: Option<Unit>, _: SharedString) {}
    fn describe_gauge(&self, _: KeyName, _: Option<Unit>, _: SharedString) {}
    fn describe_histogram(&self, _: KeyName, _: Option<Unit>, _: SharedString) {}
    fn register_counter(&self, _: &Key, _: &Metadata<'_>) -> Counter { Counter::noop() }
    fn register_gauge(&self, _: &Key, _: &Metadata<'_>) -> Gauge { Gauge::noop() }
    fn register_histogram(&self, _: &Key, _: &Metadata<'_>) -> Histogram { Histogram::noop() }
}
pub fn w() { let _ = metrics::set_global_recorder(R(Cell::new(0))); }
