//@ prop: C02
//@ expect: E0597
//@ extern: metrics
//@ twin: c02_global_static_pass
// The global recorder lives for the rest of the process: a recorder borrowing a local must be rejected.
use metrics::*;
struct R<'a>(&'a u64);
impl<'a> Recorder for R<'a> {
    fn describe_counter(&self, _: KeyName, _: Option<Unit>, _: SharedString) {}
    fn describe_gauge(&self, _: KeyName, _: Option<Unit>, _: SharedString) {}
    fn describe_histogram(&self, _: KeyName, _: Option<Unit>, _: SharedString) {}
    fn register_counter(&self, _: &Key, _: &Metadata<'_>) -> Counter { Counter::noop() }
    fn register_gauge(&self, _: &Key, _: &Metadata<'_>) -> Gauge { Gauge::noop() }
    fn register_histogram(&self, _: &Key, _: &Metadata<'_>) -> Histogram { Histogram::noop() }
}
pub fn w() {
    let local = 7u64;
    let _ = metrics::set_global_recorder(R(&local));
}
