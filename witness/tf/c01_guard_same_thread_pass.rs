//@ prop: C01
//@ expect: pass
//@ extern: metrics
use metrics::*;
struct R<T>(T);
impl<T> Recorder for R<T> {
    fn describe_counter(&self, _: KeyName, _: Option<Unit>, _: SharedString) {}
    fn describe_gauge(&self, _: KeyName, _: Option<Unit>, _: SharedString) {}
    fn describe_histogram(&self, _: KeyName, _: Option<Unit>, _: SharedString) {}
    fn register_counter(&self, _: &Key, _: &Metadata<'_>) -> Counter { Counter::noop() }
    fn register_gauge(&self, _: &Key, _: &Metadata<'_>) -> Gauge { Gauge::noop() }
    fn register_histogram(&self, _: &Key, _: &Metadata<'_>) -> Histogram { Histogram::noop() }
}
pub fn w() {
    static REC: R<u8> = R(0);
    let guard = metrics::set_default_local_recorder(&REC);
    std::thread::spawn(move || { }).join().unwrap();
    drop(guard);
}
