//@ prop: C01
//@ expect: pass
//@ extern: metrics
use metrics::*;
struct R<T>(T);
impl<T> Recorder for R<T> {
    fn describe_counter(&self, _: KeyName, _: Option<Unit>, _: SharedString) {}
    fn describe_gauge(&self, _: KeyName, _: Option<Unit>, _: SharedString) {}
    fn describe_histogram(&self, _: KeyName, _: Option<Unit>, _: SharedString) {}
    fn register_counter(&self, _: &Key, _: &Metadata<'_>) -> Counter { Counter::noop() }
    fn register_gauge(&self, _: &Key, _: &Metadata<'_>) -> Gauge { Gauge::noop() }
    fn register_histogram(&self, _: &Key, _: &Metadata<'_>) -> Histogram { Histogram::noop() }
}
pub fn w() {
    let guard;
    let rec = R(0u8);
    {
        guard = metrics::set_default_local_recorder(&rec);
    }
    metrics::counter!("x").increment(1);
    drop(guard);
}
