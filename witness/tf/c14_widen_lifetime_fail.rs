//@ prop: C14
//@ expect: msg:lifetime may not live long enough
//@ extern: metrics
//@ twin: c14_widen_lifetime_pass
// A copy-on-write string that borrows for 'a must not be usable as a SharedString ('static): the type is
// covariant in its lifetime.  (With a marker like PhantomData<fn(&'a T)> the type becomes contravariant, this
// compiles, and safe code reads the string after its owner was freed.)
pub fn w<'a>(s: &'a str) -> metrics::SharedString {
    let short: std::borrow::Cow<'a, str> = std::borrow::Cow::Borrowed(s);
    let c = From::from(short);
    c
}
