//@ prop: C02
//@ expect: pass
//@ extern: metrics
use std::sync::atomic::AtomicU64;
use metrics::*;
struct R(AtomicU64);
impl Recorder for R {
    fn describe_counter(&self, _: KeyName, _: Option<Unit>, _: SharedString) {}
    fn describe_gauge(&self, _: KeyName, _: Option<Unit>, _: SharedString) {}
    fn describe_histogram(&self, _: KeyName, _: Option<Unit>, _: SharedString) {}
    fn register_counter(&self, _: &Key, _: &Metadata<'_>) -> Counter { Counter::noop() }
    fn register_gauge(&self, _: &Key, _: &Metadata<'_>) -> Gauge { Gauge::noop() }
    fn register_histogram(&self, _: &Key, _: &Metadata<'_>) -> Histogram { Histogram::noop() }
}
pub fn w() { let _ = metrics::set_global_recorder(R(AtomicU64::new(0))); }
