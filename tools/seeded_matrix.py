#!/usr/bin/env python3
"""Runs every check against every seeded breaking change (applied to a scratch copy of /repo, never to /repo
itself) and records which rules fire.  Output: seeded/RESULTS.json and seeded/RESULTS.md.
usage: seeded_matrix.py [ID-prefix ...]   (default: all)"""
import json, os, re, shutil, subprocess, sys, tempfile
from pathlib import Path
V = Path('/verif')
props = [f'C{i:02d}' for i in range(1, 21)]
sel = sys.argv[1:]
dirs = sorted(d for d in (V / 'seeded').iterdir() if d.is_dir() and (d / 'patch.diff').exists() and (not sel or any(d.name.startswith(s) for s in sel)))
res_path = V / 'seeded' / 'RESULTS.json'
results = json.loads(res_path.read_text()) if res_path.exists() else {}
scratch = Path('/var/tmp/verif-seeded-matrix')
evd = Path('/var/tmp/verif-seeded-evidence')
for d in dirs:
    if scratch.exists():
        shutil.rmtree(scratch)
    subprocess.check_call(['rsync', '-a', '--exclude', '/target', '--exclude', '.git', '/repo/', str(scratch) + '/'])
    r = subprocess.run(['git', 'apply', '--unsafe-paths', '--directory', str(scratch), str(d / 'patch.diff')], capture_output=True, text=True, cwd='/')
    if r.returncode != 0:
        r = subprocess.run(['patch', '-p1', '-d', str(scratch), '-i', str(d / 'patch.diff')], capture_output=True, text=True)
    if r.returncode != 0:
        results[d.name] = {'error': 'patch does not apply: ' + (r.stderr or r.stdout)[-300:]}
        print(d.name, 'PATCH FAILED'); continue
    own = d.name.split('-')[0]
    env = dict(os.environ, VERIF_REPO=str(scratch), VERIF_EVIDENCE_DIR=str(evd))
    fired = {}
    for p in props:
        rr = subprocess.run([str(V / 'check'), p], capture_output=True, text=True, env=env)
        keys = re.findall(r'^\s+(?:violation|unrecognised-construct): (.*)$', rr.stdout, re.M)
        keys = [k for k in keys if '<floor>' not in k]
        if rr.returncode == 1 and (keys or 'VIOLATION' in rr.stdout):
            fired[p] = keys or ['<floor only>']
        elif rr.returncode not in (0, 1):
            fired[p] = ['<check error: exit %d>' % rr.returncode]
    meta = json.loads((d / 'meta.json').read_text())
    results[d.name] = {'property': own, 'summary': meta.get('summary', '')[:300], 'needs': meta.get('needs', '')[:300], 'caught_by_own_check': own in fired, 'fired': fired}
    print(d.name, 'own:', 'CAUGHT' if own in fired else 'MISSED', '| others:', [p for p in fired if p != own])
    res_path.write_text(json.dumps(results, indent=1))
shutil.rmtree(scratch, ignore_errors=True); shutil.rmtree(evd, ignore_errors=True)
# markdown
lines = ['| seeded change | property | caught by its own check (rules) | other checks that fire |', '|---|---|---|---|']
for name in sorted(results):
    r = results[name]
    if 'error' in r:
        lines.append(f'| {name} | | ERROR {r["error"][:60]} | |'); continue
    own = r['property']
    rules = sorted({k.split(' @ ')[0] for k in r['fired'].get(own, [])})
    others = ', '.join(f"{p} ({', '.join(sorted({k.split(' @ ')[0] for k in v}))})" for p, v in sorted(r['fired'].items()) if p != own)
    lines.append(f"| {name} | {own} | {'yes: ' + ', '.join(rules) if r['caught_by_own_check'] else '**NO**'} | {others} |")
(V / 'seeded' / 'RESULTS.md').write_text('\n'.join(lines) + '\n')
n = sum(1 for r in results.values() if r.get('caught_by_own_check'))
print(f'{n}/{len(results)} caught by their own property check')
