#!/bin/bash
# usage: confirm_seeded.sh <ID> [m1 m2 ...]  — re-confirm agent mutations in a fresh scratch worktree of /repo HEAD
# (suite passes with the mutation; demo fails with it and passes without). Results: <out>/m<i>/confirm.log
ID=$1; shift
OUT=/tmp/wt/$ID${SUF:-}-out
MS=${@:-$(cd $OUT && ls -d m* 2>/dev/null)}
WT=/tmp/wt/confirm-$ID${SUF:-}
TGT=/tmp/wt/confirm-target-$ID${SUF:-}
git -C /repo worktree remove --force $WT >/dev/null 2>&1
git -C /repo worktree add --detach $WT HEAD >/dev/null 2>&1 || { echo "cannot create worktree"; exit 2; }
for m in $MS; do
  if [ -f $OUT/$m/confirm.sh ]; then
    ( cd $OUT/$m && WT=$WT CARGO_TARGET_DIR=$TGT CARGO_NET_OFFLINE=true timeout 3000 bash confirm.sh > confirm.log 2>&1; echo "EXIT=$?" >> confirm.log )
    echo "== $ID/$m: $(grep -E '^(SUITE_WITH_MUTATION|DEMO_WITH_MUTATION|DEMO_WITHOUT_MUTATION|EXIT)=' $OUT/$m/confirm.log | tr '\n' ' ')"
    git -C $WT checkout -- . ; git -C $WT clean -fdq
  else
    echo "== $ID/$m: no confirm.sh"
  fi
done
git -C /repo worktree remove --force $WT
rm -rf $TGT
