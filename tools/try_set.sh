#!/bin/bash
# usage: try_set.sh "<PROPS>" dir...   — for each dir (seeded/<id> or benign/<id>) apply its patch.diff to /repo, run the checks, restore
PROPS=$1; shift
for d in "$@"; do
  git -C /repo apply "$(realpath $d/patch.diff)" || { echo "$d PATCH DOES NOT APPLY"; continue; }
  out=""
  for p in $PROPS; do
    r=$(/verif/check $p 2>&1 | grep -v "^KNOWN-FINDING"); 
    if echo "$r" | grep -q "VIOLATION\|Traceback\|ERROR"; then out="$out\n$(echo "$r" | grep -v '^VIOLATION' | cut -c1-420 | head -12)"; fi
  done
  git -C /repo checkout -- .
  if [ -z "$out" ]; then echo "$d: silent [$PROPS]"; else echo -e "$d: FIRES$out"; fi
done
