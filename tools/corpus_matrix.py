#!/usr/bin/env python3
"""All checks against every patch of the committed corpora, each on its own scratch export of /repo's HEAD (git archive; /repo's
working tree is never touched), several at a time.
usage: corpus_matrix.py [dir ...]     (default: benign/* seeded/*)      env: JOBS (default 5)
benign/<Cxx>-*: SILENT expected (any check firing = false alarm);  seeded/<Cxx>-*: CAUGHT expected (the check of Cxx fires).
Exit status 1 if any expectation fails.  Writes seeded/RESULTS.json|md when all of seeded/* was run."""
import json, os, re, shutil, subprocess, sys
from concurrent.futures import ThreadPoolExecutor
from pathlib import Path

V = Path(__file__).resolve().parent.parent
dirs = [Path(a) for a in sys.argv[1:]] or sorted((V / "benign").glob("C*")) + sorted((V / "seeded").glob("C*"))
jobs = int(os.environ.get("JOBS", "5"))
base = Path(f"/var/tmp/verif-corpus-{os.getpid()}")  # per invocation: two runs side by side must not remove each other's scratch trees


def one(d):
    d = d.resolve()
    kind = d.parent.name
    pid = d.name[:3]
    tag = f"{kind}-{d.name}"
    scratch = base / tag / "tree"
    evd = base / tag / "ev"
    shutil.rmtree(base / tag, ignore_errors=True)
    scratch.mkdir(parents=True)
    subprocess.check_call(f"git -C /repo archive HEAD | tar -x -C {scratch}", shell=True)
    r = subprocess.run(["git", "apply", "--unsafe-paths", "--directory", str(scratch), str(d / "patch.diff")], capture_output=True, text=True, cwd="/")
    if r.returncode != 0:
        shutil.rmtree(base / tag, ignore_errors=True)
        return d, kind, pid, None, f"PATCH FAILED {r.stderr[:200]}"
    env = dict(os.environ, VERIF_REPO=str(scratch), VERIF_EVIDENCE_DIR=str(evd))
    rr = subprocess.run([str(V / "check"), "--all"], capture_output=True, text=True, env=env, cwd="/")
    fired, cur = {}, []
    for line in (rr.stdout + rr.stderr).splitlines():
        m = re.match(r"^\s+(violation|unrecognised-construct): (.*)$", line)
        if m:
            cur.append(m.group(2)[:200])
            continue
        m = re.match(r"^\[(C\d\d)\] .* (\d+) violation\(s\)", line)
        if m:
            if int(m.group(2)):
                fired[m.group(1)] = cur[:4] or ["<floor/anchor only>"]
            cur = []
        elif "Traceback" in line:
            fired.setdefault("ERROR", []).append(line[:200])
    seen = set(re.findall(r"^\[(C\d\d)\]", rr.stdout, re.M))
    if len(seen) != 20:
        fired.setdefault("ERROR", []).append(f"only {len(seen)} of 20 checks reported")
    shutil.rmtree(base / tag, ignore_errors=True)
    return d, kind, pid, fired, None


bad = 0
results = {}
with ThreadPoolExecutor(jobs) as ex:
    for d, kind, pid, fired, err in ex.map(one, dirs):
        if err:
            print(f"{kind}/{d.name} {err}", flush=True)
            bad += 1
            continue
        if kind.startswith("benign"):
            ok = not fired
            print(f"{kind}/{d.name} {'SILENT' if ok else 'FALSE ALARM: ' + json.dumps(fired)[:600]}", flush=True)
        else:
            ok = pid in fired and "ERROR" not in fired
            others = sorted(k for k in fired if k != pid)
            print(f"seeded/{d.name} own: {'CAUGHT' if ok else 'MISSED'} {[x.split(' @')[0] for x in fired.get(pid, [])]} | others: {others}", flush=True)
            meta = {}
            try:
                meta = json.load(open(d / "meta.json"))
            except Exception:
                pass
            results[d.name] = {"property": pid, "summary": re.sub(r"\s+", " ", meta.get("summary", ""))[:300], "needs": re.sub(r"\s+", " ", meta.get("needs", ""))[:300], "caught_by_own_check": ok, "fired": fired}
        bad += 0 if ok else 1
shutil.rmtree(base, ignore_errors=True)
n_seeded = len(list((V / "seeded").glob("C*")))
if results and os.environ.get("MERGE_RESULTS") and (V / "seeded" / "RESULTS.json").exists():
    # a partial re-run (after a rule edit that can only affect these patches): update their entries in the full table
    merged = json.load(open(V / "seeded" / "RESULTS.json"))
    merged.update(results)
    results = merged
if results and len(results) == n_seeded:
    json.dump(results, open(V / "seeded" / "RESULTS.json", "w"), indent=1, sort_keys=True)
    with open(V / "seeded" / "RESULTS.md", "w") as f:
        f.write("| seeded change | property | caught by its own check (rules) | other checks that fire |\n|---|---|---|---|\n")
        for name in sorted(results):
            r = results[name]
            own = sorted({x.split(" @")[0] for x in r["fired"].get(r["property"], [])})
            oth = ", ".join(f"{k} ({', '.join(sorted({x.split(' @')[0] for x in v}))})" for k, v in sorted(r["fired"].items()) if k != r["property"])
            f.write(f"| {name} | {r['property']} | {'yes: ' + ', '.join(own) if r['caught_by_own_check'] else '**no**'} | {oth} |\n")
print(f"{len(dirs)} patches, {bad} not as expected")
sys.exit(1 if bad else 0)
