#!/bin/bash
# usage: try_scratch.sh <dir|patch.diff> [PROP ...] — apply the patch to a scratch export of /repo's HEAD (never touches /repo's
# working tree), run the named checks (default: all), print what fires; scratch removed afterwards.  KEEP=1 keeps it (prints the path).
src=$1; shift
[ -d "$src" ] && src="$src/patch.diff"
src=$(realpath "$src")
tag=$(echo "$src" | md5sum | cut -c1-10)
S=/var/tmp/verif-try/$tag
rm -rf "$S"; mkdir -p "$S/tree"
git -C /repo archive HEAD | tar -x -C "$S/tree"
( cd / && git apply --unsafe-paths --directory "$S/tree" "$src" ) || { echo "$src: PATCH DOES NOT APPLY"; rm -rf "$S"; exit 1; }
if [ $# -eq 0 ]; then
  out=$(cd / && VERIF_REPO="$S/tree" VERIF_EVIDENCE_DIR="$S/ev" /verif/check --all 2>&1)
else
  out=""
  for p in "$@"; do out="$out
$(cd / && VERIF_REPO="$S/tree" VERIF_EVIDENCE_DIR="$S/ev" /verif/check $p 2>&1)"; done
fi
f=$(echo "$out" | grep -v "^KNOWN-FINDING" | grep -B40 "violation(s)" | grep -A1 "^  violation:\|^  unrecognised\|Traceback\|Error" | grep -v "^--" | cut -c1-${WIDTH:-400})
if [ -z "$f" ]; then echo "$(dirname $src | xargs basename): silent"; else echo "$(dirname $src | xargs basename): FIRES"; echo "$f" | head -${LINES_MAX:-16}; fi
if [ -n "$KEEP" ]; then echo "kept: $S/tree"; else rm -rf "$S"; fi
