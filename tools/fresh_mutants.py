#!/usr/bin/env python3
"""Runs the checks against freshly delivered (not yet imported) agent mutants: /tmp/wt/<ID><suffix>-out/m*/patch.diff.
usage: fresh_mutants.py <suffix> [ID ...]"""
import json, os, re, shutil, subprocess, sys
from pathlib import Path
V = Path('/verif'); suf = sys.argv[1]
ids = sys.argv[2:] or [f'C{i:02d}' for i in range(1, 21)]
scratch = Path('/var/tmp/verif-fresh-mutants'); evd = Path('/var/tmp/verif-fresh-evidence')
props = [f'C{i:02d}' for i in range(1, 21)]
for pid in ids:
    out = Path(f'/tmp/wt/{pid}{suf}-out')
    for d in sorted(out.glob('m*')):
        if not (d / 'patch.diff').exists(): continue
        if scratch.exists(): shutil.rmtree(scratch)
        subprocess.check_call(['rsync', '-a', '--exclude', '/target', '--exclude', '.git', '/repo/', str(scratch) + '/'])
        r = subprocess.run(['git', 'apply', '--unsafe-paths', '--directory', str(scratch), str(d / 'patch.diff')], capture_output=True, text=True, cwd='/')
        if r.returncode != 0:
            print(pid, d.name, 'PATCH FAILED'); continue
        env = dict(os.environ, VERIF_REPO=str(scratch), VERIF_EVIDENCE_DIR=str(evd))
        fired = {}
        for p in props:
            rr = subprocess.run([str(V / 'check'), p], capture_output=True, text=True, env=env)
            keys = [k for k in re.findall(r'^\s+(?:violation|unrecognised-construct): (.*)$', rr.stdout, re.M) if '<floor>' not in k]
            if rr.returncode == 1 and keys: fired[p] = [k[:110] for k in keys[:3]]
            elif rr.returncode not in (0, 1): fired[p] = ['<error>']
        summ = ''
        try: summ = json.load(open(d / 'meta.json')).get('summary', '')[:140]
        except Exception: pass
        print(f'{pid}/{d.name}', 'CAUGHT' if pid in fired else 'MISSED', '|', {k: v for k, v in fired.items()}, '|', summ, flush=True)
shutil.rmtree(scratch, ignore_errors=True); shutil.rmtree(evd, ignore_errors=True)
