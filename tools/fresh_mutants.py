#!/usr/bin/env python3
"""Runs all checks against freshly delivered (not yet imported) agent patches without touching /repo's working tree:
/tmp/wt/<ID><suffix>-out/<m|r>*/patch.diff is applied to a scratch export of /repo's HEAD (git archive).
usage: fresh_mutants.py <suffix> [ID ...]      env: JOBS (default 4), KIND=m|r (default m)
For KIND=m prints CAUGHT/MISSED (own property's check), for KIND=r prints SILENT/ALARM (any check)."""
import json, os, re, shutil, subprocess, sys
from concurrent.futures import ThreadPoolExecutor
from pathlib import Path
V = Path(os.environ.get('VERIF_ROOT', '/verif')); suf = sys.argv[1]
ids = sys.argv[2:] or [f'C{i:02d}' for i in range(1, 21)]
kind = os.environ.get('KIND', 'm')
jobs = int(os.environ.get('JOBS', '4'))
base = Path('/var/tmp/verif-fresh')


def one(arg):
    pid, d = arg
    tag = f'{pid}{suf}-{d.name}'
    scratch = base / tag / 'tree'; evd = base / tag / 'ev'
    shutil.rmtree(base / tag, ignore_errors=True)
    scratch.mkdir(parents=True)
    subprocess.check_call(f'git -C /repo archive HEAD | tar -x -C {scratch}', shell=True)
    r = subprocess.run(['git', 'apply', '--unsafe-paths', '--directory', str(scratch), str(d / 'patch.diff')], capture_output=True, text=True, cwd='/')
    if r.returncode != 0:
        shutil.rmtree(base / tag, ignore_errors=True)
        return f'{pid}/{d.name} PATCH FAILED {r.stderr[:200]}'
    env = dict(os.environ, VERIF_REPO=str(scratch), VERIF_EVIDENCE_DIR=str(evd))
    rr = subprocess.run([str(V / 'check'), '--all'], capture_output=True, text=True, env=env, cwd='/')
    fired = {}; cur = []
    for line in (rr.stdout + rr.stderr).splitlines():
        m = re.match(r'^\s+(violation|unrecognised-construct): (.*)$', line)
        if m:
            if '<floor>' not in m.group(2): cur.append(m.group(2)[:150])
            continue
        m = re.match(r'^\[(C\d\d)\] .* (\d+) violation\(s\)', line)
        if m:
            if int(m.group(2)) and cur: fired[m.group(1)] = cur[:3]
            elif int(m.group(2)): fired[m.group(1)] = ['<floor/anchor only>']
            cur = []
        elif re.match(r'^\[(C\d\d)\]', line) or 'Traceback' in line:
            fired.setdefault('ERROR', []).append(line[:200])
    if 'ERROR' in fired:
        txt = (rr.stdout + rr.stderr)
        k = txt.find('Traceback')
        fired['ERROR'] = [txt[k:k + 1500].splitlines()[-6:]]
    summ = ''
    try: summ = re.sub(r'\s+', ' ', json.load(open(d / 'meta.json')).get('summary', ''))[:140]
    except Exception: pass
    shutil.rmtree(base / tag, ignore_errors=True)
    if kind == 'm':
        verdict = 'CAUGHT' if pid in fired else 'MISSED'
    else:
        verdict = 'ALARM' if fired else 'SILENT'
    return f'{pid}/{d.name} {verdict} | {fired} | {summ}'


work = []
for pid in ids:
    out = Path(f'/tmp/wt/{pid}{suf}-out')
    for d in sorted(out.glob(f'{kind}*')):
        if (d / 'patch.diff').exists(): work.append((pid, d))
with ThreadPoolExecutor(jobs) as ex:
    for line in ex.map(one, work):
        print(line, flush=True)
shutil.rmtree(base, ignore_errors=True)
