#!/usr/bin/env python3
"""Runs every check against behaviour-preserving refactorings (agent output under 
under /verif/benign/<ID>-r*/) applied to a scratch copy of /repo.  Every check must stay silent.
usage: benign_matrix.py SRC_DIR...   each SRC_DIR holds patch.diff"""
import json, os, re, shutil, subprocess, sys
from pathlib import Path
V = Path('/verif')
props = [f'C{i:02d}' for i in range(1, 21)]
scratch = Path('/var/tmp/verif-benign-matrix'); evd = Path('/var/tmp/verif-benign-evidence')
out = {}
for d in [Path(a).resolve() for a in sys.argv[1:]]:
    if scratch.exists(): shutil.rmtree(scratch)
    subprocess.check_call(['rsync', '-a', '--exclude', '/target', '--exclude', '.git', '/repo/', str(scratch) + '/'])
    r = subprocess.run(['git', 'apply', '--unsafe-paths', '--directory', str(scratch), str(d / 'patch.diff')], capture_output=True, text=True, cwd='/')
    if r.returncode != 0:
        print(d, 'PATCH FAILED', r.stderr[-200:]); continue
    env = dict(os.environ, VERIF_REPO=str(scratch), VERIF_EVIDENCE_DIR=str(evd))
    fired = {}
    for p in props:
        rr = subprocess.run([str(V / 'check'), p], capture_output=True, text=True, env=env)
        if rr.returncode != 0:
            keys = re.findall(r'^\s+(?:violation|unrecognised-construct): (.*)$', rr.stdout, re.M)
            det = re.findall(r'^\s+at .*$', rr.stdout, re.M)
            fired[p] = [(k, det[i].strip()[:200] if i < len(det) else '') for i, k in enumerate(keys)] or [('exit %d' % rr.returncode, (rr.stdout + rr.stderr)[-300:])]
    print(d.parent.name + '/' + d.name, 'SILENT' if not fired else 'FALSE ALARM: ' + json.dumps(fired, indent=1)[:1500])
    out[str(d)] = fired
shutil.rmtree(scratch, ignore_errors=True); shutil.rmtree(evd, ignore_errors=True)
