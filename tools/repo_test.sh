#!/bin/bash
# usage: repo_test.sh [cargo test args...]  — run the repository's tests on a scratch copy of /repo's working tree
S=/var/tmp/verif-fixtest
mkdir -p $S/src
rsync -rlp --checksum --delete --exclude /target --exclude .git /repo/ $S/src/
cd $S/src && CARGO_NET_OFFLINE=true CARGO_TARGET_DIR=$S/target cargo +1.74.0 test --offline "$@" 2>&1 | grep -E "^test result|FAILED|failed|panicked|error(\[|:)|^test .* (FAILED|failed)|Running|warning: unused" | grep -v "^\s*Running unittests src/main.rs" | tail -40
