#!/bin/bash
# usage: try_one.sh <dir> — apply patch, run ALL checks, show failures + canonicalisation log, restore
d=$1
git -C /repo apply "$(realpath $d/patch.diff)" || { echo "$d PATCH DOES NOT APPLY"; exit 1; }
out=$(/verif/check --all 2>&1 | grep -v "^KNOWN-FINDING" | grep -B3 "violation(s)" | grep -v " 0 violation" | grep -v "^VIOLATION" | cut -c1-330)
git -C /repo checkout -- .; git -C /repo clean -fdq
if [ -z "$out" ]; then echo "$d: silent"; else echo "$d: FIRES"; echo "$out" | head -${2:-14}; fi
