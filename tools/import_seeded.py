#!/usr/bin/env python3
"""Import confirmed agent mutations into /verif/seeded/<ID>-m<i>/ (patch.diff, demo files, confirm.sh, meta.json).
usage: import_seeded.py ID [m1 ...]   — only imports mutations whose confirm.log shows pass/fail/pass."""
import json, os, re, shutil, subprocess, sys
ID = sys.argv[1]
SUF = os.environ.get('SUF', '')
PREFIX = os.environ.get('NAME_PREFIX', 'm')
out = f'/tmp/wt/{ID}{SUF}-out'
ms = sys.argv[2:] or sorted(d for d in os.listdir(out) if re.fullmatch(r'm\d+', d))
for m in ms:
    src = f'{out}/{m}'
    log = open(f'{src}/confirm.log').read() if os.path.exists(f'{src}/confirm.log') else ''
    res = dict(re.findall(r'^(SUITE_WITH_MUTATION|DEMO_WITH_MUTATION|DEMO_WITHOUT_MUTATION|EXIT)=(\S+)', log, re.M))
    ok = res.get('SUITE_WITH_MUTATION') == 'pass' and res.get('DEMO_WITH_MUTATION') == 'fail' and res.get('DEMO_WITHOUT_MUTATION') == 'pass'
    if not ok:
        print(f'{ID}/{m}: NOT confirmed ({res}); skipped'); continue
    dst = f'/verif/seeded/{ID}-{PREFIX}{m[1:]}'
    os.makedirs(dst, exist_ok=True)
    for f in os.listdir(src):
        if f in ('suite.log', 'confirm.log') or f.endswith('.log') or os.path.isdir(f'{src}/{f}'):
            continue
        shutil.copy(f'{src}/{f}', f'{dst}/{f}')
    meta = json.load(open(f'{src}/meta.json'))
    meta['property'] = ID
    meta['confirmed_by_me'] = {
        'how': 'tools/confirm_seeded.sh: fresh scratch worktree of /repo HEAD under /tmp/wt/confirm-<ID>; confirm.sh applied the patch, ran the full workspace suite (cargo test --workspace --no-fail-fast --offline) with the mutation, ran the demo with the mutation (must fail) and without it (must pass); worktree and build output removed afterwards',
        'suite_with_mutation': res.get('SUITE_WITH_MUTATION'), 'demo_with_mutation': res.get('DEMO_WITH_MUTATION'), 'demo_without_mutation': res.get('DEMO_WITHOUT_MUTATION'),
        'repo_head': subprocess.check_output(['git', '-C', '/repo', 'rev-parse', '--short', 'HEAD'], text=True).strip(),
    }
    json.dump(meta, open(f'{dst}/meta.json', 'w'), indent=1)
    print(f'{ID}/{m}: imported -> {dst}')
