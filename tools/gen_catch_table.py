#!/usr/bin/env python3
"""Regenerate the catch table of DESIGN.md §12.5 from seeded/RESULTS.json (written by tools/seeded_matrix.py).
The table sits between the markers <!-- catch-table:begin --> and <!-- catch-table:end -->."""
import json, os, re, sys
ROOT = os.path.dirname(os.path.dirname(os.path.abspath(__file__)))
res = json.load(open(os.path.join(ROOT, "seeded", "RESULTS.json")))


def rules(lines):
    out = []
    for l in lines:
        m = re.match(r"(C\d\d\.[a-z]+)", l)
        if m and m.group(1) not in out:
            out.append(m.group(1))
    return out


rows = ["| seeded change | what it does (agent's summary, truncated) | rules of its own property that fire | other properties that fire |",
        "|---|---|---|---|"]
for name in sorted(res):
    r = res[name]
    own = rules(r["fired"].get(r["property"], []))
    others = sorted(p for p in r["fired"] if p != r["property"] and r["fired"][p])
    summ = re.sub(r"\s+", " ", r.get("summary", ""))[:150].replace("|", "/")
    rows.append(f"| {name} | {summ} | {', '.join(own) if own else '**none**'} | {', '.join(others) if others else '—'} |")
table = "\n".join(rows)
p = os.path.join(ROOT, "DESIGN.md")
s = open(p).read()
b, e = "<!-- catch-table:begin -->", "<!-- catch-table:end -->"
if b not in s or e not in s:
    sys.exit("markers missing in DESIGN.md")
s = s[:s.index(b) + len(b)] + "\n" + table + "\n" + s[s.index(e):]
open(p, "w").write(s)
print(f"{len(rows) - 2} rows written; own-check catches: {sum(1 for r in res.values() if r['caught_by_own_check'])}/{len(res)}")
