#!/usr/bin/env python3
"""Regenerates MANIFEST.json from the table below (claimed checks) + properties.jsonl (everything else n/a)."""
import json, os
V = '/verif'
props = [json.loads(l) for l in open(f'{V}/properties.jsonl')]
RESIDUE_NOTE = "Trusted base: rustc's type checker and MIR construction (nightly, same sources cargo builds), the vdrv fact exporter, std/external callees named in the evidence file's trusted_base. Decides the clauses listed in DESIGN.md §5 (as amended by §12) for this property, not the residue listed there and in evidence.coverage.not_decided. The rules run on the program with private helper functions spliced into their callers (MIR level) and decide path conditions by a path-sensitive propagation of one predicate at a time, so they are insensitive to helper extraction/inlining, private renames and the common control-flow spellings (DESIGN.md §12.2); the benign-refactoring corpus under /verif/benign and the seeded breaking changes under /verif/seeded are replayed by the thorough tier."
CLAIMED = {
 "C01": ("precedence/save-restore/forwarding rules over MIR (dominance, switch-edge gates, provenance) + compile-fail witnesses + macro-expansion witness analysed by the same driver; the global-cell rules of C02 are imported (C01.h)",
         "Every path of with_recorder, LocalRecorderGuard::{new,drop}, with_local_recorder and of all 81 macro arm expansions is decided; type-level witnesses quantify over all programs of their shape. The unsound set_default_local_recorder histories (FIFO drop, mem::forget) are reported as known findings F1a/F1b."),
 "C02": ("once-cell premises over MIR: single CAS + store on its success edge, write-dominates-publish, Release/Acquire table, gated read, hand-back ownership on every exit + compile-fail witnesses; no reference to the state word stored or passed on; restore of the thread-local slot imported from C01",
         "The structural premises of the standard once-cell argument are decided on every path of set/try_load; interleavings themselves are not explored (memory-model reasoning is the trusted argument)."),
 "C04": ("forwarding tables, single-RMW atomic discipline, symbolic value of the CAS closure, loop-shape and conversion tables over MIR/HIR + auto-trait witnesses; CAS retry loops decided by recompute-from-observed-value; sibling storages of C05/C10 imported",
         "With std atomics trusted the single-RMW rule is sufficient (not only necessary) for exactly-once application; decided for every handle/atomic/Arc/From region and every HistogramFn impl in the workspace."),
 "C14": ("ownership-effect table per (function x kind arm) over MIR (edge-dominated arm regions, argument provenance, release-on-unwind reachability), encoding-table agreement, unsafe-impl bounds + witnesses; capacity guard present in every build (not debug-only, via macro backtrace); data pointer taken after the last mutating call on the owner",
         "For both Cowable impls every kind arm of owned_from_parts/clone_from_parts/drop_from_parts is decided to perform exactly the acquire/release effects the encoding requires, on normal and unwind paths; Vec/Arc raw-parts APIs are trusted."),
 "C13": ("forwarding + kind-consistency + sibling-isomorphism over MIR for every layer's Recorder impl; switch-edge gates for the filter; mask/arm tables and provenance for the router; loop-shape (whole-vector iteration, exit only on exhaustion) for the fanout; configured prefix/patterns stored unchanged (conversion-only chains)",
         "Every Recorder method of Stack/Prefix/Filter/Router/Fanout and every Fanout*Fn method is decided on all paths; radix_trie::get_ancestor and aho_corasick::is_match semantics are trusted."),
 "C03": ("sibling agreement of canonical forms read from the typed HIR match arms of hash / == / cmp; who-may-construct rule over every Key aggregate (hash belongs to the stored name/labels); Release/Acquire + dominance table for the hash memo; forwarding of Cow's relations through deref; early exits of == justified (false only where name/count/hash differ, true only for one and the same key); no narrowed position in the unbounded class",
         "Agreement of the three relations is decided per label-count class {0,1,2,3..7,8+} (exhaustive over the finite class set); the memoisation protocol premises are decided on every path of get_hash/clone. That sort+lexicographic comparison is a total order is the standard argument, not re-proved."),
 "C06": ("provenance of hash/shard/key through every keyed operation, entry-API-only insertion under the write guard (must-pass-through on guard drops), lock-result handling uniformity, kind-triplet isomorphism and kind-consistency over MIR; key contract imported from C03; Key hash contract and memo publication imported from C03",
         "Every keyed operation of Registry is decided on all paths; RwLock and hashbrown's raw-entry API are trusted. Linearizability under contention is argued from these premises, not explored."),
 "C05": ("slot-protocol ordering/dominance, wait-before-read must-pass-through gates, link-before-publish dominance, seal-before-read fence, CAS-success-edge confinement of reads and epoch-deferred frees, over MIR of bucket.rs; the chain walk leaves its loop only on a null next pointer",
         "Decides the structural premises (necessary conditions) of the bucket's exactly-once argument on every path of Block::{push,len,data,is_quiesced,drop} and AtomicBucket::{push,data_with,clear_with}; exactly-once delivery under all interleavings itself is NOT decided (residue)."),
 "C12": ("decision-table gates of Recency::should_store over MIR (switch-edge dominance), update-before-bump dominance in with_increment, forwarding of every Generational *Fn method, kind->state injectivity, series-identity agreement in the Prometheus exporter; generation bump on every path of every Generational update method",
         "Decides on every path that a metric is deleted only under all five conditions (incl. the strict comparison) and that bookkeeping is refreshed/removed as required; clock behaviour is not decided."),
 "C07": ("who-may-call on the destructive read, entry-API-only creation under a held write guard, aggregation-arm tables, provenance of rendered _count/_sum/+Inf values, label-merge order, or_insert-only description table, recorder forwarding — over MIR of the Prometheus exporter; scalar values written unconverted; registry/Key contract imported from C06/C03; HELP looked up under the stored name; Generational forwarding imported from C12",
         "Every sample's path from bucket to rendered line is decided structurally (drain once, record once, cumulative counters rendered); f64 sum equality and concurrency of the bucket itself (C05) are residue."),
 "C08": ("abstract output-alphabet analysis of the escaper (per-iteration reachability from the character switch), predicate-table and gate analysis of the name sanitisers, family-name agreement and TYPE-dominates-samples over render's CFG, suffix/label tables, type/variant condition agreement; unit-suffix text table (every string unit_suffix can return is within the name grammar); every label-formatting closure of key_to_parts sanitises both halves; HELP text written as escaped",
         "Well-formedness is decided for all input strings because every emitted unit is shown to be a complete escape or a harmless character on every path; decided for all Unit values and both distribution variants."),
 "C09": ("must-pass-through of the placeholder re-add after every buffer shrink, symbolic term coverage of the splitter's shadow length against the segments written, commit/accounting pairing by dominance, message-segment order and formatter table — over MIR of writer.rs; tag-section opener set on every way round the tag loop; values reach the formatter unconverted; every closed payload typed by the metric_type parameter",
         "Decides for every path of commit/Drop for Payloads/write_* that framing invariants and accounting pairings hold and that every written segment is counted; the arithmetic that makes assert!(commit()) unreachable is argued, not proved."),
 "C10": ("atomic protocol table of AtomicCounter/AtomicGauge (single read of current, swap, single RMW), skip-path reachability in State::flush cut at value==0 edges, documentation-vs-arm table for AggregationMode, transport/write-call table, destructive-read table; one setter per builder knob; bucket and writer rules imported from C05/C09",
         "Decides the per-operation atomic protocol and that a destructively read delta is written or proven zero on every path; multi-word races of AtomicCounter are residue."),
 "C11": ("ownership of the taken buffer on every connection-keeping exit of drive_connection (reachability cut at restore sites), parked-value provenance, decrement gating, must-wake-after-send, capacity constant range, name-preserving operation tables; fresh client tokens (counter only ever advanced); intake bounded by the forwarded limit; removal only on drive_connection()==true; frames encoded into an initially empty growable buffer; `no limit` falls back to the sentinel only",
         "Decides on every path that an unwritten buffer is parked again, that clients are counted out only when removed, and that every enqueue wakes the transport; mio behaviour and liveness are residue."),
 "C15": ("sibling agreement of the bound comparison operator in record/record_many, loop-shape rules (every bound / first bound + cumulative pass), ADT variant-order + derive facts, sort comparator and first-match dominance, expiry-predicate agreement between add and snapshot, bucket-membership gates; window knobs independent; summary _count/_sum rules imported from C07; one clock function for stamping and window evaluation; create-or-get under one write guard imported from C07",
         "Decides the structural meaning of buckets and windows (operator, order, precedence, predicates); sketch accuracy and numeric edge behaviour are residue."),
 "C16": ("value-range/provenance of the RNG bound (pre-increment count + 1), fill/replace gate table, drain clamp, reset-on-drop must-pass-through, active-side table agreement between push and consume, swap-under-mutex dominance; generator seeded from an entropy source; exact fill test; capacity used as requested",
         "Decides Algorithm R's necessary bound and the bookkeeping identities on every path; the statistical claim and push-during-drain races are residue."),
 "C17": ("merge-function table (non-overwriting for parent inheritance, overwriting for record), registered-parent provenance, per-type formatting of Visit methods, filter-argument provenance and filter-before-extend dominance in enhance_key, recorder forwarding; allow-list names stored unchanged; pooled maps cleared on every path of the reset function; inheritance from the direct parent only",
         "Decides on every path which label source wins and what the filter sees; tracing's own span bookkeeping is trusted."),
 "C18": ("typed-HIR gate rule on the async request handler (render only under exactly `if is_allowed`, 403+empty body otherwise), fail-closed table of check_tcp_allowed, loop-exit-freedom of the accept loops, spawn-per-connection, parser table of add_allowed_address vs its documentation; tested address is the peer's own; builder allowlist place written only by add_allowed_address and handed to the listener and stored as given; every value of the metrics answer is this request's render(); no atomic write straddling an await",
         "Decides the allowlist gate and isolation structurally for all requests/peers; hyper/tokio behaviour under malformed input is trusted."),
 "C19": ("unconditional track-then-create per registration (must-pass-through, kind-consistency, sibling isomorphism), who-may-touch on seen/metadata, per-kind arm table of snapshot, accumulate-not-overwrite rule for the histogram drain closure, unit/description update table; local-over-global precedence imported from C01; registry/bucket/atomics rules imported from C06/C05/C04; Key contract imported from C03",
         "Decides which metrics a snapshot lists and from where each value is read on every path; values under concurrent updates rest on C04/C05."),
 "C20": ("upgrade-guarded forwarding (Some-edge gate, receiver provenance through the upgraded Arc, Arc liveness across the call), try_unwrap retry-loop shape, field-type ownership facts, no count-peeking / no unsafe who-may-call rules; upgrade() on every path to a return and Some edge always forwarded",
         "Decides that the wrapped recorder is entered only under a live strong reference and recovered only through try_unwrap; termination of the retry loop is residue."),
}
checks = []
for p in props:
    pid = p['id']
    if pid in CLAIMED and os.path.exists(f"{V}/engine/rules/props/{pid.lower()}.py"):
        tech, text = CLAIMED[pid]
        checks.append({
            "property_id": pid,
            "quick_cmd": f"./check {pid} --tier quick",
            "thorough_cmd": f"./check {pid} --tier thorough",
            "evidence_file": f"/verif/evidence/{pid}.json",
            "replay_cmd_template": f"./check {pid} --replay {{path}}",
            "engine": "vdrv+rules",
            "level_claimed": {"category": "other", "text": "Static analysis (no execution of /repo code, concrete or symbolic): " + text, "design_ref": f"DESIGN.md §5 {pid}"},
            "level_note": RESIDUE_NOTE,
            "technique": "static analysis: " + tech,
        })
na = [{"property_id": p['id'], "reason": "check not yet built in this round (design in DESIGN.md §5); will be claimed once its rules exist"} for p in props if p['id'] not in {c['property_id'] for c in checks}]
m = {
 "version": 1,
 "setup_cmd": "./check --setup",
 "hooks": {"guard": "metrics_verif", "enable": "none needed: static analysis reads the unmodified build; no hook commits exist in /repo", "baseline_off_cmd": "./check --baseline", "source_commits": [], "add_only": True},
 "engines": [
  {"name": "vdrv", "path": "engine/vdrv", "serves_properties": [c['property_id'] for c in checks], "kind_free_text": "rustc_private driver (RUSTC_WORKSPACE_WRAPPER) exporting drop-elaborated MIR CFG with resolved callees/constants, typed HIR trees and item facts for every workspace library crate, from a scratch copy of /repo's working tree"},
  {"name": "rules", "path": "engine/rules", "serves_properties": [c['property_id'] for c in checks], "kind_free_text": "Python rule library: dominators, edge gates, provenance/symbolic values, kind-consistency, forwarding and ownership tables; compile-fail/compile-pass witnesses and macro expansion witnesses compiled by nightly rustc against the same build"},
 ],
 "checks": checks,
 "not_applicable": na,
 "notes": "All checks are static (family: static analysis). Known findings: known_findings.json. Seeded breaking changes: seeded/. See DESIGN.md.",
}
if os.path.exists(f'{V}/fix_commits.json'):
    m['hooks']['source_commits'] = json.load(open(f'{V}/fix_commits.json'))
json.dump(m, open(f'{V}/MANIFEST.json', 'w'), indent=1)
print(len(checks), 'claimed;', len(na), 'n/a')
