#!/usr/bin/env python3
"""Developer tool: apply a textual replacement to a file in /repo, run a check, restore the tree.
usage: try_mut.py PROP[,PROP..] relative/file.rs 'old' 'new' [count]"""
import subprocess, sys
props, rel, old, new = sys.argv[1:5]
p = '/repo/' + rel
s = open(p).read()
n = s.count(old)
if n == 0:
    print('pattern not found'); sys.exit(2)
cnt = int(sys.argv[5]) if len(sys.argv) > 5 else 1
open(p, 'w').write(s.replace(old, new, cnt))
try:
    for prop in props.split(','):
        r = subprocess.run(['/verif/check', prop], capture_output=True, text=True)
        print(f'--- {prop} exit', r.returncode)
        print('\n'.join((r.stdout + r.stderr).splitlines()[-14:]))
finally:
    subprocess.run(['git', '-C', '/repo', 'checkout', '--', '.'])
