#!/usr/bin/env python3
"""Writes engine/reference.json: fingerprints of the private functions and the field lists of the ADTs of the pinned
tree (the facts of /repo's *current clean* working tree), used by engine/rules/canon.py to map renamed / moved private
items back onto the names the rules know.  Re-run only when the pinned tree itself legitimately changes."""
import json, sys
from pathlib import Path
sys.path.insert(0, '/verif/engine/rules')
import orchestrate, canon
d = orchestrate.extract("default")
out = {}
for p in sorted(Path(d).glob('*.json')):
    if p.name.startswith('x_') or p.name == 'meta.json':
        continue
    j = json.loads(p.read_text())
    if 'fns' not in j:
        continue
    out[p.stem] = canon.build_reference(j)
Path('/verif/engine/reference.json').write_text(json.dumps(out, indent=0, sort_keys=True))
print({k: (len(v['fns']), len(v['adts'])) for k, v in out.items()})
