#!/usr/bin/env python3
"""For every repaired defect (known_findings.json, status fixed): re-introduce it by reverse-applying its fix commit
on a scratch copy of /repo and confirm that the property's check reports a violation again (a fixed entry suppresses
nothing).  usage: prefix_matrix.py [Fnn ...]"""
import json, os, re, shutil, subprocess, sys
from pathlib import Path
V = Path('/verif')
kf = json.loads((V / 'known_findings.json').read_text())['findings']
sel = sys.argv[1:]
scratch = Path('/var/tmp/verif-prefix-matrix'); evd = Path('/var/tmp/verif-prefix-evidence')
bad = 0
for f in kf:
    if f.get('status') != 'fixed' or (sel and f['id'] not in sel):
        continue
    if scratch.exists(): shutil.rmtree(scratch)
    subprocess.check_call(['rsync', '-a', '--exclude', '/target', '--exclude', '.git', '/repo/', str(scratch) + '/'])
    diff = subprocess.run(['git', '-C', '/repo', 'show', '--format=', f['commit']], capture_output=True, text=True).stdout
    r = subprocess.run(['git', 'apply', '-R', '--unsafe-paths', '--directory', str(scratch), '-'], input=diff, capture_output=True, text=True, cwd='/')
    if r.returncode != 0:
        r = subprocess.run(['patch', '-R', '-p1', '-d', str(scratch)], input=diff, capture_output=True, text=True)
    if r.returncode != 0:
        print(f['id'], 'REVERSE-APPLY FAILED (later fixes touch the same lines):', (r.stderr or r.stdout)[-160:].replace('\n', ' ')); continue
    env = dict(os.environ, VERIF_REPO=str(scratch), VERIF_EVIDENCE_DIR=str(evd))
    rr = subprocess.run([str(V / 'check'), f['property']], capture_output=True, text=True, env=env)
    keys = re.findall(r'^\s+(?:violation|unrecognised-construct): (.*)$', rr.stdout, re.M)
    ok = rr.returncode == 1 and keys
    bad += 0 if ok else 1
    print(f['id'], f['property'], f['commit'], 'RE-DETECTED' if ok else 'NOT DETECTED (exit %d)' % rr.returncode, [k[:100] for k in keys][:3])
shutil.rmtree(scratch, ignore_errors=True); shutil.rmtree(evd, ignore_errors=True)
sys.exit(1 if bad else 0)
