#!/usr/bin/env python3
"""Targeted replay after a rule edit: every patch of benign/ and seeded/ that touches a file one of the edited rules reads
is replayed against exactly the checks that contain (or import) those rules — on a scratch export of /repo's HEAD, /repo's
working tree is never touched.  The full matrix (tools/corpus_matrix.py: all twenty checks x every patch) is the reference;
this is the affordable subset when only some rule modules changed.
usage: targeted_matrix.py MAP.json [dir ...]    MAP.json = {"<path fragment>": ["C05", "C04", ...], ...}   env: JOBS
benign/*: none of the named checks may fire;  seeded/<Cxx>-*: the check of Cxx must fire (if it is among the named ones)."""
import json, os, re, shutil, subprocess, sys
from concurrent.futures import ThreadPoolExecutor
from pathlib import Path

V = Path(__file__).resolve().parent.parent
fmap = json.load(open(sys.argv[1]))
dirs = [Path(a) for a in sys.argv[2:]] or sorted((V / "benign").glob("C*")) + sorted((V / "seeded").glob("C*"))
jobs = int(os.environ.get("JOBS", "8"))
base = Path(f"/var/tmp/verif-targeted-{os.getpid()}")


def props_for(d):
    files = re.findall(r"^\+\+\+ b/(\S+)", (d / "patch.diff").read_text(errors="replace"), re.M)
    out = set()
    for f in files:
        for frag, ps in fmap.items():
            if frag in f:
                out.update(ps)
    return sorted(out)


def one(d):
    d = d.resolve()
    kind, pid = d.parent.name, d.name[:3]
    ps = props_for(d)
    if kind == "seeded" and pid not in ps:
        ps = []
    elif kind == "seeded":
        ps = [pid]
    if not ps:
        return f"{kind}/{d.name} SKIP (no edited rule reads what it touches)", True
    tag = f"{kind}-{d.name}"
    scratch, evd = base / tag / "tree", base / tag / "ev"
    shutil.rmtree(base / tag, ignore_errors=True)
    scratch.mkdir(parents=True)
    subprocess.check_call(f"git -C /repo archive HEAD | tar -x -C {scratch}", shell=True)
    r = subprocess.run(["git", "apply", "--unsafe-paths", "--directory", str(scratch), str(d / "patch.diff")], capture_output=True, text=True, cwd="/")
    if r.returncode != 0:
        shutil.rmtree(base / tag, ignore_errors=True)
        return f"{kind}/{d.name} PATCH FAILED", False
    env = dict(os.environ, VERIF_REPO=str(scratch), VERIF_EVIDENCE_DIR=str(evd))
    fired, err = [], False
    for p in ps:
        rr = subprocess.run([str(V / "check"), p], capture_output=True, text=True, env=env, cwd="/")
        out = rr.stdout + rr.stderr
        m = re.search(r"^\[%s\] .* (\d+) violation\(s\)" % p, out, re.M)
        if "Traceback" in out or not m:
            err = True
            fired.append(p + ":ERROR")
        elif int(m.group(1)):
            first = re.search(r"^\s+(?:violation|unrecognised-construct): (.*)$", out, re.M)
            fired.append(p + ": " + (first.group(1)[:110] if first else "?"))
    shutil.rmtree(base / tag, ignore_errors=True)
    if kind == "benign":
        ok = not fired
        return f"{kind}/{d.name} {'SILENT' if ok else 'ALARM'} {ps} {fired if fired else ''}", ok
    ok = bool(fired) and not err
    return f"{kind}/{d.name} {'CAUGHT' if ok else 'MISSED'} {fired}", ok


bad = 0
with ThreadPoolExecutor(jobs) as ex:
    for line, ok in ex.map(one, dirs):
        print(line, flush=True)
        bad += 0 if ok else 1
shutil.rmtree(base, ignore_errors=True)
print(f"{len(dirs)} patches, {bad} not as expected")
sys.exit(1 if bad else 0)
