#!/bin/bash
# usage: run_patch.sh <patch.diff> PROP [PROP...] — apply to /repo, run checks, restore
P=$1; shift
git -C /repo apply "$(realpath "$P")" || { echo "PATCH DOES NOT APPLY"; exit 3; }
for prop in "$@"; do /verif/check $prop 2>&1 | grep -v "^KNOWN-FINDING" | tail -6; done
git -C /repo checkout -- .
